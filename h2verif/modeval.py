"""Evaluation of module-level (or class-level) table construction.

The transition tables, STREAM_OPEN and similar constants may be written as
one literal or be built up: comprehensions over enum classes or constant
tuples, `.update(...)`, subscript stores, `for` loops at module level.  This
evaluator runs exactly those statements over folded values (enum members as
EnumVal, functions as FuncRef) - a total, side-effect free subset of Python;
anything outside it raises NotConst and the caller fails closed.  Nothing of
h2 is imported or executed.
"""
import ast

from .srcmodel import EnumVal, NotConst

MAX_STEPS = 200000


class FuncRef:
    __slots__ = ('name',)

    def __init__(self, name):
        self.name = name

    def __eq__(self, o):
        return isinstance(o, FuncRef) and o.name == self.name

    def __hash__(self):
        return hash(('FuncRef', self.name))

    def __repr__(self):
        return '<func %s>' % self.name


class EnumCls:
    __slots__ = ('qual', 'members')

    def __init__(self, qual, members):
        self.qual = qual
        self.members = members     # list of EnumVal in definition order


class ModEval:
    def __init__(self, model, module, cls=None):
        self.m = model
        self.module = module
        self.cls = cls                # class qual for class-level tables
        self.env = {}
        self.origin = {}              # dict key -> node that produced it
        self.duplicates = []
        self.steps = 0

    # ------------------------------------------------------------------
    def value_of(self, name):
        """Run the statements of the scope in order, return the final value
        bound to `name`."""
        if self.cls:
            body = self.m.classes[self.cls].node.body
        else:
            body = self.m.modules[self.module].tree.body
        touched = False
        for st in body:
            if self._mentions(st, name):
                self._exec(st)
                touched = True
        if not touched or name not in self.env:
            raise NotConst
        return self.env[name]

    def _mentions(self, st, name):
        """Does the statement (re)bind or mutate `name`?"""
        if isinstance(st, (ast.FunctionDef, ast.AsyncFunctionDef,
                           ast.ClassDef, ast.Import, ast.ImportFrom)):
            return False
        for n in ast.walk(st):
            if isinstance(n, ast.Name) and n.id == name and \
                    isinstance(n.ctx, (ast.Store, ast.Del)):
                return True
            # name[k] = v / name.method(...)
            if isinstance(n, ast.Subscript) and isinstance(
                    n.ctx, (ast.Store, ast.Del)) and \
                    isinstance(n.value, ast.Name) and n.value.id == name:
                return True
            if isinstance(n, ast.Call) and isinstance(
                    n.func, ast.Attribute) and isinstance(
                    n.func.value, ast.Name) and n.func.value.id == name \
                    and n.func.attr in ('update', 'append', 'extend', 'add',
                                        'setdefault', 'insert', 'pop',
                                        'remove', 'clear'):
                return True
        return False

    # ------------------------------------------------------------------
    def _exec(self, st):
        self._tick()
        if isinstance(st, ast.Assign):
            v = self.ev(st.value)
            for t in st.targets:
                self._store(t, v, st)
        elif isinstance(st, ast.AnnAssign):
            if st.value is not None:
                self._store(st.target, self.ev(st.value), st)
        elif isinstance(st, ast.AugAssign):
            cur = self.ev(_as_load(st.target))
            v = self._binop(st.op, cur, self.ev(st.value), True)
            self._store(st.target, v, st)
        elif isinstance(st, ast.Expr):
            if isinstance(st.value, ast.Constant):
                return
            self.ev(st.value)
        elif isinstance(st, ast.For):
            for x in self._iter(self.ev(st.iter)):
                self._store(st.target, x, st)
                for s in st.body:
                    self._exec(s)
            for s in st.orelse:
                self._exec(s)
        elif isinstance(st, ast.If):
            for s in (st.body if self._truth(self.ev(st.test))
                      else st.orelse):
                self._exec(s)
        elif isinstance(st, ast.Pass):
            return
        elif isinstance(st, ast.Delete):
            for t in st.targets:
                if isinstance(t, ast.Name):
                    self.env.pop(t.id, None)
                else:
                    raise NotConst
        else:
            raise NotConst

    def _store(self, t, v, at):
        if isinstance(t, ast.Name):
            self.env[t.id] = v
        elif isinstance(t, (ast.Tuple, ast.List)):
            vs = list(self._iter(v))
            if len(vs) != len(t.elts):
                raise NotConst
            for a, b in zip(t.elts, vs):
                self._store(a, b, at)
        elif isinstance(t, ast.Subscript):
            c = self.ev(t.value)
            k = self.ev(t.slice)
            if isinstance(c, dict):
                c[_hk(k)] = v
                self.origin[_hk(k)] = at
            elif isinstance(c, list):
                c[int(k)] = v
            else:
                raise NotConst
        else:
            raise NotConst

    # ------------------------------------------------------------------
    def _tick(self):
        self.steps += 1
        if self.steps > MAX_STEPS:
            raise NotConst

    def _truth(self, v):
        if isinstance(v, EnumVal):
            return bool(v.value)
        return bool(v)

    def _iter(self, v):
        if isinstance(v, EnumCls):
            return list(v.members)
        if isinstance(v, dict):
            return list(v.keys())
        if isinstance(v, (list, tuple, set, frozenset, range)):
            return list(v) if not isinstance(v, (set, frozenset)) else \
                sorted(v, key=repr)
        raise NotConst

    def ev(self, e):
        self._tick()
        meth = getattr(self, '_ev_' + type(e).__name__, None)
        if meth is None:
            raise NotConst
        return meth(e)

    def _ev_Constant(self, e):
        return e.value

    def _ev_Name(self, e):
        if e.id in self.env:
            return self.env[e.id]
        if e.id in ('True', 'False', 'None'):
            return {'True': True, 'False': False, 'None': None}[e.id]
        if self.cls:
            c = self.m.classes[self.cls]
            if e.id in c.methods:
                return FuncRef(e.id)
        r = self.m.resolve_name(self.module, e.id)
        if r:
            if r[0] == 'class':
                mem = self.m.enum_members(r[1].qual)
                if mem:
                    return EnumCls(r[1].qual, [
                        EnumVal(r[1].name, k, v) for k, v in mem.items()])
                return ('class', r[1].qual)
            if r[0] == 'func':
                return FuncRef(e.id)
            if r[0] == 'const':
                if len(r[1]) == 1:
                    try:
                        return self.m.fold(e, self.module, self.cls)
                    except NotConst:
                        pass
                sub = ModEval(self.m, r[2])
                sub.steps = self.steps
                v = sub.value_of(e.id)
                self.steps = sub.steps
                return v
        if e.id in ('range', 'len', 'dict', 'list', 'tuple', 'set',
                    'frozenset', 'enumerate', 'zip', 'sorted', 'bool',
                    'int', 'any', 'all', 'reversed'):
            return ('builtin', e.id)
        raise NotConst

    def _ev_Attribute(self, e):
        try:
            return self.m.fold(e, self.module, self.cls)
        except NotConst:
            pass
        b = self.ev(e.value)
        if isinstance(b, EnumVal):
            if e.attr == 'value':
                return b.value
            if e.attr == 'name':
                return b.name
            raise NotConst
        if isinstance(b, EnumCls):
            for x in b.members:
                if x.name == e.attr:
                    return x
            raise NotConst
        if isinstance(b, tuple) and len(b) == 2 and b[0] == 'class':
            return FuncRef(e.attr)
        if isinstance(b, (dict, list, set)):
            return ('method', b, e.attr)
        raise NotConst

    def _ev_Tuple(self, e):
        return tuple(self._elts(e.elts))

    def _ev_List(self, e):
        return list(self._elts(e.elts))

    def _ev_Set(self, e):
        return set(_hk(x) for x in self._elts(e.elts))

    def _elts(self, elts):
        out = []
        for x in elts:
            if isinstance(x, ast.Starred):
                out.extend(self._iter(self.ev(x.value)))
            else:
                out.append(self.ev(x))
        return out

    def _ev_Dict(self, e):
        d = {}
        for k, v in zip(e.keys, e.values):
            if k is None:
                sub = self.ev(v)
                if not isinstance(sub, dict):
                    raise NotConst
                d.update(sub)
                continue
            kv = _hk(self.ev(k))
            if kv in d:
                self.duplicates.append(kv)
            d[kv] = self.ev(v)
            self.origin[kv] = k
        return d

    def _comp(self, gens, i, emit):
        if i == len(gens):
            emit()
            return
        g = gens[i]
        for x in self._iter(self.ev(g.iter)):
            self._tick()
            self._store(g.target, x, g.iter)
            if all(self._truth(self.ev(c)) for c in g.ifs):
                self._comp(gens, i + 1, emit)

    def _scoped(self, fn):
        saved = dict(self.env)
        try:
            return fn()
        finally:
            self.env = saved

    def _ev_ListComp(self, e):
        out = []
        self._scoped(lambda: self._comp(
            e.generators, 0, lambda: out.append(self.ev(e.elt))))
        return out

    _ev_GeneratorExp = _ev_ListComp

    def _ev_SetComp(self, e):
        out = set()
        self._scoped(lambda: self._comp(
            e.generators, 0, lambda: out.add(_hk(self.ev(e.elt)))))
        return out

    def _ev_DictComp(self, e):
        out = {}

        def emit():
            k = _hk(self.ev(e.key))
            if k in out:
                self.duplicates.append(k)
            out[k] = self.ev(e.value)
            self.origin[k] = e
        self._scoped(lambda: self._comp(e.generators, 0, emit))
        return out

    def _ev_IfExp(self, e):
        return self.ev(e.body) if self._truth(self.ev(e.test)) \
            else self.ev(e.orelse)

    def _ev_BoolOp(self, e):
        v = None
        for x in e.values:
            v = self.ev(x)
            if isinstance(e.op, ast.And) and not self._truth(v):
                return v
            if isinstance(e.op, ast.Or) and self._truth(v):
                return v
        return v

    def _ev_UnaryOp(self, e):
        v = self.ev(e.operand)
        if isinstance(e.op, ast.Not):
            return not self._truth(v)
        if isinstance(e.op, ast.USub) and isinstance(v, int):
            return -v
        raise NotConst

    def _ev_Compare(self, e):
        left = self.ev(e.left)
        for op, r in zip(e.ops, e.comparators):
            right = self.ev(r)
            if not self._cmp(op, left, right):
                return False
            left = right
        return True

    def _cmp(self, op, a, b):
        if isinstance(op, (ast.In, ast.NotIn)):
            items = [_hk(x) for x in self._iter(b)]
            r = _hk(a) in items
            return r if isinstance(op, ast.In) else not r
        if isinstance(op, (ast.Is, ast.IsNot)):
            r = (a is b) or (isinstance(a, (EnumVal, FuncRef)) and a == b)
            return r if isinstance(op, ast.Is) else not r
        if isinstance(op, (ast.Eq, ast.NotEq)):
            if isinstance(a, EnumVal) != isinstance(b, EnumVal):
                a = a.value if isinstance(a, EnumVal) else a
                b = b.value if isinstance(b, EnumVal) else b
            r = a == b
            return r if isinstance(op, ast.Eq) else not r
        a = a.value if isinstance(a, EnumVal) else a
        b = b.value if isinstance(b, EnumVal) else b
        try:
            if isinstance(op, ast.Lt):
                return a < b
            if isinstance(op, ast.LtE):
                return a <= b
            if isinstance(op, ast.Gt):
                return a > b
            if isinstance(op, ast.GtE):
                return a >= b
        except TypeError:
            raise NotConst
        raise NotConst

    def _ev_BinOp(self, e):
        return self._binop(e.op, self.ev(e.left), self.ev(e.right), False)

    def _binop(self, op, a, b, inplace):
        ai = a.value if isinstance(a, EnumVal) else a
        bi = b.value if isinstance(b, EnumVal) else b
        try:
            if isinstance(op, ast.Add):
                if isinstance(a, list) and inplace:
                    a.extend(self._iter(b))
                    return a
                return ai + bi
            if isinstance(op, ast.Sub):
                return ai - bi
            if isinstance(op, ast.Mult):
                return ai * bi
            if isinstance(op, ast.BitOr):
                if isinstance(a, dict) and isinstance(b, dict):
                    if inplace:
                        a.update(b)
                        return a
                    d = dict(a)
                    d.update(b)
                    return d
                return ai | bi
            if isinstance(op, ast.FloorDiv):
                return ai // bi
            if isinstance(op, ast.Mod) and isinstance(ai, int):
                return ai % bi
            if isinstance(op, ast.Pow) and abs(bi) < 64:
                return ai ** bi
        except NotConst:
            raise
        except Exception:
            raise NotConst
        raise NotConst

    def _ev_Subscript(self, e):
        c = self.ev(e.value)
        if isinstance(e.slice, ast.Slice):
            lo = self.ev(e.slice.lower) if e.slice.lower else None
            hi = self.ev(e.slice.upper) if e.slice.upper else None
            if e.slice.step is not None or not isinstance(c, (list, tuple)):
                raise NotConst
            return c[lo:hi]
        k = self.ev(e.slice)
        try:
            if isinstance(c, dict):
                return c[_hk(k)]
            if isinstance(c, (list, tuple)):
                return c[int(k)]
        except (KeyError, IndexError, TypeError, ValueError):
            raise NotConst
        raise NotConst

    def _ev_Starred(self, e):
        raise NotConst

    def _ev_Call(self, e):
        f = self.ev(e.func)
        if any(isinstance(a, ast.Starred) for a in e.args):
            raise NotConst
        args = [self.ev(a) for a in e.args]
        kw = {}
        for k in e.keywords:
            if k.arg is None:
                raise NotConst
            kw[k.arg] = self.ev(k.value)
        if isinstance(f, tuple) and f[0] == 'builtin':
            return self._builtin(f[1], args, kw, e)
        if isinstance(f, tuple) and f[0] == 'method':
            return self._method(f[1], f[2], args, kw, e)
        raise NotConst

    def _builtin(self, name, args, kw, node):
        try:
            if name == 'range' and not kw:
                r = range(*[int(a) for a in args])
                if len(r) > 10000:
                    raise NotConst
                return r
            if name == 'len' and len(args) == 1:
                return len(self._iter(args[0]))
            if name == 'dict':
                d = {}
                if args:
                    src = args[0]
                    if isinstance(src, dict):
                        d.update(src)
                    else:
                        for kv in self._iter(src):
                            k, v = self._iter(kv)
                            d[_hk(k)] = v
                            self.origin[_hk(k)] = node
                for k, v in kw.items():
                    d[k] = v
                return d
            if name in ('list', 'sorted', 'reversed'):
                xs = list(self._iter(args[0])) if args else []
                if name == 'sorted':
                    xs = sorted(xs, key=lambda x: x.value
                                if isinstance(x, EnumVal) else x)
                if name == 'reversed':
                    xs = xs[::-1]
                return xs
            if name == 'tuple':
                return tuple(self._iter(args[0])) if args else ()
            if name in ('set', 'frozenset'):
                return set(_hk(x) for x in self._iter(args[0])) \
                    if args else set()
            if name == 'enumerate':
                start = int(args[1]) if len(args) > 1 else \
                    int(kw.get('start', 0))
                return [(i + start, x)
                        for i, x in enumerate(self._iter(args[0]))]
            if name == 'zip':
                return [tuple(t) for t in zip(*[self._iter(a)
                                                for a in args])]
            if name == 'bool':
                return self._truth(args[0]) if args else False
            if name == 'int':
                return int(args[0])
            if name == 'any':
                return any(self._truth(x) for x in self._iter(args[0]))
            if name == 'all':
                return all(self._truth(x) for x in self._iter(args[0]))
        except NotConst:
            raise
        except Exception:
            raise NotConst
        raise NotConst

    def _method(self, obj, name, args, kw, node):
        if isinstance(obj, dict):
            if name == 'update':
                for src in args:
                    if isinstance(src, dict):
                        for k, v in src.items():
                            obj[k] = v
                    else:
                        for kv in self._iter(src):
                            k, v = self._iter(kv)
                            obj[_hk(k)] = v
                            self.origin[_hk(k)] = node
                for k, v in kw.items():
                    obj[k] = v
                return None
            if name == 'items':
                return [(k, v) for k, v in obj.items()]
            if name == 'keys':
                return list(obj.keys())
            if name == 'values':
                return list(obj.values())
            if name == 'get':
                return obj.get(_hk(args[0]), args[1] if len(args) > 1
                               else None)
            if name == 'copy':
                return dict(obj)
            if name == 'setdefault' and len(args) == 2:
                return obj.setdefault(_hk(args[0]), args[1])
        if isinstance(obj, list):
            if name == 'append' and len(args) == 1:
                obj.append(args[0])
                return None
            if name == 'extend' and len(args) == 1:
                obj.extend(self._iter(args[0]))
                return None
            if name == 'copy':
                return list(obj)
        if isinstance(obj, set):
            if name == 'add' and len(args) == 1:
                obj.add(_hk(args[0]))
                return None
            if name == 'update':
                for a in args:
                    obj.update(_hk(x) for x in self._iter(a))
                return None
        raise NotConst


def _hk(v):
    """Hashable key."""
    if isinstance(v, list):
        return tuple(_hk(x) for x in v)
    if isinstance(v, tuple):
        return tuple(_hk(x) for x in v)
    if isinstance(v, set):
        return frozenset(v)
    if isinstance(v, dict):
        raise NotConst
    return v


def _as_load(t):
    t2 = ast.copy_location(type(t)(**{f: getattr(t, f)
                                      for f in t._fields}), t)
    t2.ctx = ast.Load()
    return t2
