"""./check --selfcheck : the engine can parse the tree and its own anchors."""
import sys
from .core import AnalysisError


def main():
    try:
        from .engine import Engine
        eng = Engine()
        eng.fsm
        n = sum(len(eng.I.run(fi)) for fi in eng.m.funcs.values())
        print('selfcheck ok: %d modules, %d functions, %d paths, calls %r'
              % (len(eng.m.modules), len(eng.m.funcs), n, eng.r.stats))
        return 0
    except AnalysisError as e:
        print('ANALYSIS-ERROR selfcheck %s' % e)
        return 2


if __name__ == '__main__':
    sys.exit(main())
