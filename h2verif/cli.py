"""./check <ID> [--tier quick|thorough] [--replay PATH] | --selfcheck"""
import argparse
import importlib
import json
import os
import sys
import traceback

from .core import Ctx, AnalysisError, finish, VERIF_DIR

ALL = ['C%02d' % i for i in range(1, 30)]


def have_rule(prop):
    return os.path.exists(os.path.join(VERIF_DIR, 'h2verif', 'rules',
                                       prop.lower() + '.py'))


def run_property(prop, tier, seed, repo=None, out=sys.stdout, eng=None,
                 extra=None):
    from .engine import Engine
    try:
        if eng is None:
            eng = Engine(repo)
        ctx = Ctx(prop, tier, seed, eng.m)
        if extra is not None:
            ctx.record('checker_selftest', extra)
        eng.base_counts(ctx)
        mod = importlib.import_module('h2verif.rules.%s' % prop.lower())
        from .paths import Interp
        p0 = Interp.paths_used
        mod.run(ctx, eng)
        # a rule that reads the extracted state machines reads them by
        # member NAME: that is only the program's meaning while no two
        # members of an enumeration share a value (Enum aliasing)
        import inspect
        src = inspect.getsource(mod)
        if 'eng.fsm' in src or 'compare_cells' in src or \
                'compare_conn' in src:
            from .rules import common
            common.enums_distinct(ctx, eng)
        ctx.record('paths_examined', Interp.paths_used - p0)
        from . import extlib
        for n in extlib.notes:
            ctx.note(n)
        if not ctx.obligations:
            raise AnalysisError('no obligation was produced')
        return finish(ctx, out)
    except AnalysisError as e:
        out.write('ANALYSIS-ERROR property=%s %s\n' % (prop, e))
        return 2
    except Exception:
        out.write('ANALYSIS-ERROR property=%s internal error\n' % prop)
        out.write(traceback.format_exc())
        return 2


def main(argv=None):
    ap = argparse.ArgumentParser(prog='check')
    ap.add_argument('prop', nargs='?')
    ap.add_argument('--tier', default=os.environ.get('VERIF_TIER', 'quick'),
                    choices=['quick', 'thorough'])
    ap.add_argument('--replay')
    ap.add_argument('--selfcheck', action='store_true')
    ap.add_argument('--selftest', action='store_true')
    ap.add_argument('--repo')
    ap.add_argument('--summary', action='store_true',
                    help='with "all": one line per property')
    ap.add_argument('--jobs', type=int, default=16)
    a = ap.parse_args(argv)
    seed = int(os.environ.get('VERIF_SEED', '0') or 0)
    if a.selfcheck:
        from . import selfcheck
        return selfcheck.main()
    if a.selftest:
        from .selftest import runner
        return runner.main(a.prop, a.jobs, repo=a.repo)
    if a.replay:
        with open(a.replay) as fh:
            rec = json.load(fh)
        prop = a.prop or rec['property']
        rc = run_property(prop, a.tier, seed, a.repo)
        return rc
    if not a.prop:
        ap.error('property id required')
    if a.prop == 'all':
        import io
        from .engine import Engine
        rc = 0
        try:
            eng = Engine(a.repo)
        except AnalysisError as e:
            print('ANALYSIS-ERROR engine %s' % e)
            return 2
        except Exception:
            print('ANALYSIS-ERROR engine internal error')
            print(traceback.format_exc())
            return 2
        for p in ALL:
            if not have_rule(p):
                continue
            buf = io.StringIO() if a.summary else sys.stdout
            r = run_property(p, a.tier, seed, a.repo, out=buf, eng=eng)
            if a.summary:
                lines = buf.getvalue().splitlines()
                viol = [ln for ln in lines if ln.startswith('  ') and
                        not ln.startswith('    ')]
                err = [ln for ln in lines if ln.startswith('ANALYSIS-ERROR')]
                print('%s rc=%d %s' % (p, r, ' || '.join(
                    x.strip()[:160] for x in (viol + err)[:3])))
            rc = max(rc, r)
        return rc
    extra = None
    if a.tier == 'thorough':
        # The verdict on /repo is the same exhaustive static check as the
        # quick tier.  The thorough tier adds the checker's own sensitivity
        # test: every catalogued breaking change that this property's check
        # must flag, and every catalogued behaviour-preserving change it must
        # stay silent on, applied to scratch copies of the CURRENT tree.  Its
        # outcome is reported (and written to the evidence) but does not
        # change the verdict on /repo.  Of the behaviour-preserving changes
        # each property takes every fourth (offset by its number), so that a
        # thorough run stays near a minute; `./check --selftest all` runs
        # the whole matrix.
        from .selftest import runner
        extra = {}
        share = None
        if a.prop[1:].isdigit():
            share = (int(a.prop[1:]), 4)
        runner.main(a.prop, a.jobs, quiet=True, repo=a.repo, results=extra,
                    benign_share=share)
    return run_property(a.prop, a.tier, seed, a.repo, extra=extra)


if __name__ == '__main__':
    try:
        rc = main()
    except SystemExit:
        raise
    except BaseException:
        # a crash of the checker is never a verdict
        sys.stdout.write('ANALYSIS-ERROR internal error of the checker\n')
        sys.stdout.write(traceback.format_exc())
        rc = 2
    sys.exit(rc)
