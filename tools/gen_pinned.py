#!/usr/bin/env python3
"""Regenerates spec/known_functions.txt and spec/known_fingerprints.json from
the CURRENT /repo tree (run only when the pinned tree itself changes, i.e.
after a fix: commit)."""
import ast, json, os, sys
V = os.path.dirname(os.path.dirname(os.path.abspath(__file__)))
sys.path.insert(0, V)
from h2verif import normalise as N
src = '/repo/src/h2'
trees = {}
for fn in sorted(os.listdir(src)):
    if fn.endswith('.py'):
        trees[fn[:-3]] = ast.parse(open(os.path.join(src, fn)).read())
ft = N.function_table(trees)
funcs = {}
cc = N.callers_of(trees, ft)
for q, (node, mname, cls) in sorted(ft.items()):
    funcs[q] = {'fp': N.fingerprint(node), 'fpl': N.fingerprint(node, True),
                'cls': cls, 'nargs': len(node.args.args),
                'callers': cc.get(q, []), 'src': ast.unparse(node)}
attrs = {k: sorted(v) for k, v in sorted(N.class_attrs(trees).items())}
json.dump({'functions': funcs, 'attrs': attrs},
          open(os.path.join(V, 'h2verif', 'spec', 'known_fingerprints.json'), 'w'),
          indent=0, sort_keys=True)
print(len(funcs), 'functions,', sum(len(v) for v in attrs.values()), 'attributes')
