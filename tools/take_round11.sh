#!/bin/bash
# usage: take_round2.sh Cxx  -> confirms /tmp/wt11/Cxx/out (as Cxx-c) and out/alt (as Cxx-d), runs the matrix on them
P=$1
[ -f /tmp/wt11/$P/out/patch.diff ] && /verif/tools/verify_seed.sh /tmp/wt11/$P/out $P-u
[ -f /tmp/wt11/$P/out/alt/patch.diff ] && /verif/tools/verify_seed.sh /tmp/wt11/$P/out/alt $P-v
IDS=""
[ -d /verif/seeded/$P-u ] && IDS="$IDS $P-u"
[ -d /verif/seeded/$P-v ] && IDS="$IDS $P-v"
[ -n "$IDS" ] && /verif/tools/seed_matrix.sh $IDS
