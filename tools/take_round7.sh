#!/bin/bash
# usage: take_round2.sh Cxx  -> confirms /tmp/wt7/Cxx/out (as Cxx-c) and out/alt (as Cxx-d), runs the matrix on them
P=$1
[ -f /tmp/wt7/$P/out/patch.diff ] && /verif/tools/verify_seed.sh /tmp/wt7/$P/out $P-m
[ -f /tmp/wt7/$P/out/alt/patch.diff ] && /verif/tools/verify_seed.sh /tmp/wt7/$P/out/alt $P-n
IDS=""
[ -d /verif/seeded/$P-m ] && IDS="$IDS $P-m"
[ -d /verif/seeded/$P-n ] && IDS="$IDS $P-n"
[ -n "$IDS" ] && /verif/tools/seed_matrix.sh $IDS
