#!/usr/bin/env python3
"""Rewrites the generated tables of DESIGN.md (between the SEEDTABLE and
BENIGNTABLE markers) from /verif/seeded/*/meta.json, seeded/EXPECTED.json and
/verif/benign/*.txt."""
import glob, json, os, re
V = os.path.dirname(os.path.dirname(os.path.abspath(__file__)))
exp = json.load(open(os.path.join(V, 'seeded', 'EXPECTED.json')))
rows = ['| change | what it does (one line) | flagged by |', '|---|---|---|']
for sid in sorted(exp):
    try:
        m = json.load(open(os.path.join(V, 'seeded', sid, 'meta.json')))
    except Exception:
        m = {}
    s = ' '.join((m.get('summary') or '').split())
    s = s.replace('|', '/')
    if len(s) > 150:
        s = s[:147] + '...'
    own = sid.split('-')[0]
    fl = ' '.join(('**%s**' % p) if p == own else p for p in exp[sid])
    rows.append('| %s | %s | %s |' % (sid, s, fl))
seed_tab = '\n'.join(rows)
rows = ['| change | kind |', '|---|---|']
for f in sorted(glob.glob(os.path.join(V, 'benign', '*.diff'))):
    n = os.path.basename(f)[:-5]
    t = ''
    tf = f[:-5] + '.txt'
    if os.path.exists(tf):
        t = ' '.join(open(tf).read().split()).replace('|', '/')
    if len(t) > 170:
        t = t[:167] + '...'
    rows.append('| %s | %s |' % (n, t))
ben_tab = '\n'.join(rows)
p = os.path.join(V, 'DESIGN.md')
s = open(p).read()
for name, tab in (('SEEDTABLE', seed_tab), ('BENIGNTABLE', ben_tab)):
    a = '<!-- %s:BEGIN -->' % name
    b = '<!-- %s:END -->' % name
    if a in s and b in s:
        s = s[:s.index(a) + len(a)] + '\n' + tab + '\n' + s[s.index(b):]
open(p, 'w').write(s)
print('tables written: %d seeds, %d benign' % (len(exp), len(glob.glob(os.path.join(V, 'benign', '*.diff')))))
