#!/bin/bash
# usage: take_round2.sh Cxx  -> confirms /tmp/wt6/Cxx/out (as Cxx-c) and out/alt (as Cxx-d), runs the matrix on them
P=$1
[ -f /tmp/wt6/$P/out/patch.diff ] && /verif/tools/verify_seed.sh /tmp/wt6/$P/out $P-k
[ -f /tmp/wt6/$P/out/alt/patch.diff ] && /verif/tools/verify_seed.sh /tmp/wt6/$P/out/alt $P-l
IDS=""
[ -d /verif/seeded/$P-k ] && IDS="$IDS $P-k"
[ -d /verif/seeded/$P-l ] && IDS="$IDS $P-l"
[ -n "$IDS" ] && /verif/tools/seed_matrix.sh $IDS
