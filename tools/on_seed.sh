#!/bin/bash
# usage: on_seed.sh <seed id | path to a .diff> <Cxx> [<Cxx> ...]
# Runs the named checks on a scratch copy of /repo/src/h2 with the change
# applied and prints the violation lines (nothing is written to /repo or to
# /verif/evidence).
S=$1; shift
P=$S; [ -f "$P" ] || P=/verif/seeded/$S/patch.diff
D=$(mktemp -d /tmp/seedrun.XXXXXX)
mkdir -p $D/src && cp -r /repo/src/h2 $D/src/h2
(cd $D && patch -s -p1 -f < $P >/dev/null 2>&1) || { echo "patch failed"; rm -rf $D; exit 2; }
cd /verif
for c in "$@"; do
  echo "== $c"
  H2VERIF_NOEVIDENCE=1 H2VERIF_REPLAY_DIR=$D/replay ./check $c --repo $D 2>&1 | grep -v "^KNOWN-FINDING\|^analysed\|^obligations" | cut -c1-${W:-400}
done
rm -rf $D
