#!/bin/bash
# usage: benign_matrix.sh <diff files...>  -> which checks report something on a behaviour-preserving change
cd /verif
one() {
  f=$1
  D=$(mktemp -d /tmp/benrun.XXXXXX)
  mkdir -p $D/src && cp -r /repo/src/h2 $D/src/h2
  if ! (cd $D && patch -s -p1 -f < $f >/dev/null 2>&1); then echo "$f: patch failed"; rm -rf $D; return; fi
  OUT=$(H2VERIF_NOEVIDENCE=1 H2VERIF_REPLAY_DIR=$D/replay ./check all --summary --repo $D 2>&1)
  BAD=$(echo "$OUT" | grep -v ' rc=0 ' )
  if [ -z "$BAD" ]; then echo "$f: silent"; else echo "$f: REPORTED"; echo "$BAD" | cut -c1-400 | sed 's/^/      /'; fi
  rm -rf $D
}
export -f one
printf '%s\n' "$@" | xargs -P 12 -I{} bash -c 'one {}' 
