#!/bin/bash
# usage: take_round2.sh Cxx  -> confirms /tmp/wt9/Cxx/out (as Cxx-c) and out/alt (as Cxx-d), runs the matrix on them
P=$1
[ -f /tmp/wt9/$P/out/patch.diff ] && /verif/tools/verify_seed.sh /tmp/wt9/$P/out $P-q
[ -f /tmp/wt9/$P/out/alt/patch.diff ] && /verif/tools/verify_seed.sh /tmp/wt9/$P/out/alt $P-r
IDS=""
[ -d /verif/seeded/$P-q ] && IDS="$IDS $P-q"
[ -d /verif/seeded/$P-r ] && IDS="$IDS $P-r"
[ -n "$IDS" ] && /verif/tools/seed_matrix.sh $IDS
