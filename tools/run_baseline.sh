#!/bin/bash
# Runs the repository's baseline suite (on /repo or $1) and compares with BASELINE.json stable_pass.
REPO=${1:-/repo}
OUT=$(mktemp /tmp/junit.XXXXXX.xml)
cd "$REPO" && PYTHONPATH="$REPO/src" /venv/bin/python -m pytest -q -p no:cacheprovider --timeout=900 --continue-on-collection-errors --junitxml="$OUT" >/dev/null 2>&1
/venv/bin/python - "$OUT" <<'P'
import sys,json
import xml.etree.ElementTree as ET
b=json.load(open('/root/.vp/BASELINE.json'))
t=ET.parse(sys.argv[1]).getroot()
res={}
for tc in t.iter('testcase'):
    name=tc.get('classname')+'::'+tc.get('name')
    ok=not any(c.tag in('failure','error') for c in tc)
    sk=any(c.tag=='skipped' for c in tc)
    res[name]=ok and not sk
bad=[n for n in b['stable_pass'] if not res.get(n,False)]
print('stable_pass ok: %d / %d'%(len(b['stable_pass'])-len(bad),len(b['stable_pass'])))
for n in bad[:20]: print('  REGRESSION',n, 'missing' if n not in res else 'failed')
sys.exit(1 if bad else 0)
P
rc=$?
rm -f "$OUT"
exit $rc
