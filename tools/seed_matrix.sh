#!/bin/bash
# usage: seed_matrix.sh [seed ids...]  -> which checks flag which seeded change.
# Each seed is applied to a scratch copy of /repo's source tree (never to
# /repo); all checks share one engine per seed; seeds run 12 at a time.
cd /verif
SEEDS=${@:-$(ls -d seeded/*/ | xargs -n1 basename)}
one() {
  s=$1
  D=$(mktemp -d /tmp/seedrun.XXXXXX)
  mkdir -p $D/src && cp -r /repo/src/h2 $D/src/h2
  if ! (cd $D && patch -s -p1 < /verif/seeded/$s/patch.diff >/dev/null 2>&1); then echo "$s: patch failed"; rm -rf $D; return; fi
  OUT=$(H2VERIF_NOEVIDENCE=1 ./check all --summary --repo $D 2>&1)
  HIT=$(echo "$OUT" | grep ' rc=1 ' | cut -d' ' -f1 | tr '\n' ' ')
  ERR=$(echo "$OUT" | grep -e ' rc=2 ' -e '^ANALYSIS-ERROR' | cut -d' ' -f1-2 | tr '\n' ' ')
  echo "$s: flagged by [${HIT% }]  analysis-error [${ERR% }]"
  rm -rf $D
}
export -f one
printf '%s\n' $SEEDS | xargs -P 12 -I{} bash -c 'one {}' | sort
