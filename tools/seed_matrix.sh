#!/bin/bash
# usage: seed_matrix.sh [seed ids...]  -> which checks flag which seeded change.
# Each seed is applied to a scratch copy of /repo's source tree (never to /repo).
cd /verif
SEEDS=${@:-$(ls seeded)}
PROPS=${PROPS:-$(ls h2verif/rules | grep '^c[0-9][0-9].py$' | sed 's/.py//' | tr a-z A-Z)}
for s in $SEEDS; do
  D=$(mktemp -d /tmp/seedrun.XXXXXX)
  mkdir -p $D/src && cp -r /repo/src/h2 $D/src/h2
  if ! (cd $D && patch -s -p1 < /verif/seeded/$s/patch.diff >/dev/null 2>&1); then echo "$s: patch failed"; rm -rf $D; continue; fi
  HIT=""; ERR=""
  for p in $PROPS; do
    OUT=$(H2VERIF_NOEVIDENCE=1 ./check $p --repo $D 2>&1); RC=$?
    if [ $RC -eq 1 ]; then HIT="$HIT $p"; fi
    if [ $RC -eq 2 ]; then ERR="$ERR $p"; fi
  done
  echo "$s: flagged by [${HIT# }]  analysis-error [${ERR# }]"
  rm -rf $D
done
