#!/usr/bin/env python3
"""Regenerates /verif/MANIFEST.json from the rule modules that exist."""
import json, os, sys
V = os.path.dirname(os.path.dirname(os.path.abspath(__file__)))
sys.path.insert(0, V)
props = [json.loads(l) for l in open(os.path.join(V, 'properties.jsonl'))]
from h2verif.rules import manifest_info as MI   # noqa: E402

BASE = ("cd /repo && /venv/bin/python -m pytest -ra -q -p no:cacheprovider "
        "--timeout=900 --continue-on-collection-errors")
checks, na = [], []
for p in props:
    pid = p['id']
    info = MI.INFO.get(pid)
    have = os.path.exists(os.path.join(V, 'h2verif', 'rules', pid.lower() + '.py'))
    if info is None or not have or info.get('na'):
        na.append({'property_id': pid,
                   'reason': (info or {}).get('na') or 'no static rule built for this property yet'})
        continue
    checks.append({
        'property_id': pid,
        'quick_cmd': './check %s --tier quick' % pid,
        'thorough_cmd': './check %s --tier thorough' % pid,
        'evidence_file': '/verif/evidence/%s.json' % pid,
        'replay_cmd_template': './check %s --replay {path}' % pid,
        'engine': 'h2verif',
        'level_claimed': {
            'category': 'other',
            'design_ref': 'DESIGN.md section 4, %s' % pid,
            'text': info['level']},
        'level_note': info.get('note', MI.DEFAULT_NOTE),
        'technique': info['technique'],
    })
man = {
    'version': 1,
    'setup_cmd': './check --selfcheck',
    'hooks': {'guard': 'H2_VERIF',
              'enable': 'none: the checks read source with ast and need no hooks in /repo',
              'baseline_off_cmd': BASE, 'source_commits': [], 'add_only': True},
    'engines': [{'name': 'h2verif', 'path': 'h2verif/',
                 'serves_properties': [c['property_id'] for c in checks],
                 'kind_free_text': 'repository-specific AST static analysis: call resolution by receiver typing, '
                                   'exception-escape summaries, path effect traces with affine normal forms, '
                                   'typestate over the extracted transition tables vs an RFC 7540 reference'}],
    'checks': checks,
    'not_applicable': na,
    'notes': 'Static analysis only: every check parses /repo/src/h2 on each run and never imports or executes h2. '
             'Exit 0 = all decided clauses hold (open known findings are printed as KNOWN-FINDING); exit 1 = VIOLATION; '
             'exit 2 = ANALYSIS-ERROR (the checker lost sight of code; never a silent pass). See DESIGN.md.',
}
json.dump(man, open(os.path.join(V, 'MANIFEST.json'), 'w'), indent=1)
print('checks', len(checks), 'not_applicable', len(na))
