#!/bin/bash
# usage: take_round2.sh Cxx  -> confirms /tmp/wt2/Cxx/out (as Cxx-c) and out/alt (as Cxx-d), runs the matrix on them
P=$1
[ -f /tmp/wt2/$P/out/patch.diff ] && /verif/tools/verify_seed.sh /tmp/wt2/$P/out $P-c
[ -f /tmp/wt2/$P/out/alt/patch.diff ] && /verif/tools/verify_seed.sh /tmp/wt2/$P/out/alt $P-d
IDS=""
[ -d /verif/seeded/$P-c ] && IDS="$IDS $P-c"
[ -d /verif/seeded/$P-d ] && IDS="$IDS $P-d"
[ -n "$IDS" ] && /verif/tools/seed_matrix.sh $IDS
