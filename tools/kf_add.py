#!/usr/bin/env python3
"""kf_add.py PROP FID KEY WHAT  - append an open entry to known_findings.json
(design-time tool; checks never write this file)."""
import json, sys
p='/verif/known_findings.json'
d=json.load(open(p))
prop,fid,key,what=sys.argv[1:5]
if any(e['key']==key for e in d):
    print('already listed'); sys.exit(0)
d.append({'status':'open','property':prop,'id':fid,'key':key,'what_fails':what})
json.dump(d,open(p,'w'),indent=1)
print('added',key)
