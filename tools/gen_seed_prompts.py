#!/usr/bin/env python3
"""Write one prompt per property for a round of held-out breaking changes.

usage: gen_seed_prompts.py <round-no> <outdir>   (worktrees: /tmp/wt<round>/Cxx)

Each prompt carries only the text of the property and one-line summaries of
the changes earlier agents produced for it (so that the new one attacks another
mechanism); nothing else from /verif is handed out.
"""
import glob
import json
import os
import sys

rnd, out = sys.argv[1], sys.argv[2]
os.makedirs(out, exist_ok=True)
props = [json.loads(l) for l in open('/verif/properties.jsonl')]
for p in props:
    pid = p['id']
    wt = '/tmp/wt%s/%s' % (rnd, pid)
    prior = []
    for d in sorted(glob.glob('/verif/seeded/%s-*' % pid)):
        try:
            m = json.load(open(d + '/meta.json'))
        except Exception:
            continue
        s = (m.get('summary') or '').strip().replace('\n', ' ')
        if s:
            prior.append('  - ' + s[:260])
    lines = ['  - %s (%s)' % (m['name'], m['where'])
             for m in (p.get('anchors') or {}).get('mechanism', [])]
    body = ['  statement: ' + p['statement'],
            '  quantified over: ' + p['quantifier']['text'],
            '  why the existing tests cannot settle it: ' + p['why_tests_cant']]
    txt = f"""You are working on a scratch git worktree of the pure-Python HTTP/2 library python-hyper/hyper-h2 at {wt} (library source in {wt}/src/h2, tests in {wt}/test). Work ONLY inside {wt}; never read or touch /repo or /verif (they are out of bounds), and do not commit anything.

How to run things against YOUR worktree (the interpreter has another copy installed, so PYTHONPATH is required):
  cd {wt} && PYTHONPATH={wt}/src /venv/bin/python -m pytest -q -p no:cacheprovider --timeout=900 test
The unchanged tree has exactly 11 tests that always fail for environmental reasons (test_changing_max_frame_size, 5 in TestEventReprs, 5 in TestAutomaticFlowControl); everything else (1403 tests) passes. The suite takes about 10 s.

Here is a semantic property that the library is supposed to satisfy:

  id: {pid}
  title: {p.get('title')}
""" + '\n'.join(body) + ('\n  code that is meant to make it hold:\n' + '\n'.join(lines) if lines else '') + f"""

YOUR TASK: design a realistic, small change to the library source (files under src/h2 only - do not edit tests) that BREAKS this property, yet still imports and still passes the whole existing test suite (same 1403 passes, only the 11 environmental failures). Think of the kind of regression a well-meaning refactor, optimisation or "simplification" could introduce. The change must need something specific to manifest - a particular interleaving or multi-step sequence of operations, an unusual input or boundary value, a fault at a particular point, or two cooperating sites that each look fine alone - not something ordinary use would expose at once. Do not just delete a whole feature; prefer subtle semantic changes (an off-by-one, a swapped order of two statements, a wrong variable, a dropped/loosened check on one path, a missing table entry, a stale cached value, ...). Avoid changes that merely add dead code or comments.

Deliverables, all under {wt}/out/ :
  1. patch.diff  - output of `git -C {wt} diff -- src` (the change only, applies with `git apply` to a clean checkout).
  2. demo.py     - a small standalone program (plain python, uses only h2/hyperframe/hpack; run as `PYTHONPATH=<tree>/src /venv/bin/python demo.py`) that exits 0 on the unchanged tree and exits non-zero (assertion failure) on the changed tree, demonstrating the property violation through the public API of the library.
  3. meta.json   - {{"property": "{pid}", "summary": "<one line: what was changed>", "needs": "<what specific condition is needed for it to manifest>", "files": [...], "functions": [...]}}

Before finishing, VERIFY all of this yourself: (a) with the change applied the full test suite shows no new failures; (b) demo.py fails with the change and passes without it (use `git apply -R` / `git apply` with your patch file to switch; do NOT use `git stash`, the stash is shared with other worktrees); leave the worktree WITH the change applied when you are done. If you can, produce a second, independent alternative in {wt}/out/alt/ (same three files) that attacks a different mechanism of the same property - but one well-verified change is better than two sloppy ones.

IMPORTANT - other engineers have already produced the following changes for this property; yours must attack a DIFFERENT mechanism, function or clause of the property. Read the whole statement of the property again, clause by clause, and the "quantified over" line; look for a clause, a boundary value, a configuration option, a supporting helper, a table entry, a cached value, an ordering of two statements or an interaction between two features that none of these touches. Changes in modules other than the obvious one (settings.py, windows.py, frame_buffer.py, utilities.py, events.py, exceptions.py, config.py) are welcome when they break THIS property:
""" + '\n'.join(prior) + """

Report back briefly: what you changed, why the tests do not notice, and the outcome of your verification runs.
"""
    open(os.path.join(out, pid + '.txt'), 'w').write(txt)
print('wrote', len(props), 'prompts to', out)
