#!/bin/bash
# usage: take_round2.sh Cxx  -> confirms /tmp/wt5/Cxx/out (as Cxx-c) and out/alt (as Cxx-d), runs the matrix on them
P=$1
[ -f /tmp/wt5/$P/out/patch.diff ] && /verif/tools/verify_seed.sh /tmp/wt5/$P/out $P-i
[ -f /tmp/wt5/$P/out/alt/patch.diff ] && /verif/tools/verify_seed.sh /tmp/wt5/$P/out/alt $P-j
IDS=""
[ -d /verif/seeded/$P-i ] && IDS="$IDS $P-i"
[ -d /verif/seeded/$P-j ] && IDS="$IDS $P-j"
[ -n "$IDS" ] && /verif/tools/seed_matrix.sh $IDS
