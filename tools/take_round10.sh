#!/bin/bash
# usage: take_round2.sh Cxx  -> confirms /tmp/wt10/Cxx/out (as Cxx-c) and out/alt (as Cxx-d), runs the matrix on them
P=$1
[ -f /tmp/wt10/$P/out/patch.diff ] && /verif/tools/verify_seed.sh /tmp/wt10/$P/out $P-s
[ -f /tmp/wt10/$P/out/alt/patch.diff ] && /verif/tools/verify_seed.sh /tmp/wt10/$P/out/alt $P-t
IDS=""
[ -d /verif/seeded/$P-s ] && IDS="$IDS $P-s"
[ -d /verif/seeded/$P-t ] && IDS="$IDS $P-t"
[ -n "$IDS" ] && /verif/tools/seed_matrix.sh $IDS
