#!/bin/bash
# usage: take_round2.sh Cxx  -> confirms /tmp/wt12/Cxx/out (as Cxx-c) and out/alt (as Cxx-d), runs the matrix on them
P=$1
[ -f /tmp/wt12/$P/out/patch.diff ] && /verif/tools/verify_seed.sh /tmp/wt12/$P/out $P-w
[ -f /tmp/wt12/$P/out/alt/patch.diff ] && /verif/tools/verify_seed.sh /tmp/wt12/$P/out/alt $P-x
IDS=""
[ -d /verif/seeded/$P-w ] && IDS="$IDS $P-w"
[ -d /verif/seeded/$P-x ] && IDS="$IDS $P-x"
[ -n "$IDS" ] && /verif/tools/seed_matrix.sh $IDS
