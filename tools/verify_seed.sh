#!/bin/bash
# usage: verify_seed.sh <src dir holding patch.diff demo.py meta.json> <seed id>
# Confirms a seeded change in a scratch worktree: demo passes on the clean tree,
# the patch applies, the baseline suite still passes, the demo fails with it.
SRC=$1; ID=$2
WT=/tmp/vs_$ID
git -C /repo worktree remove --force $WT >/dev/null 2>&1
git -C /repo worktree add --detach $WT HEAD >/dev/null 2>&1 || { echo "worktree failed"; exit 2; }
cleanup() { git -C /repo worktree remove --force $WT >/dev/null 2>&1; rm -rf $WT; }
cd $WT
PYTHONPATH=$WT/src timeout 300 /venv/bin/python $SRC/demo.py >/tmp/vs_$ID.clean.log 2>&1; RC_CLEAN=$?
if ! git apply --check $SRC/patch.diff 2>/dev/null; then echo "$ID: patch does not apply"; cleanup; exit 1; fi
git apply $SRC/patch.diff
/verif/tools/run_baseline.sh $WT >/tmp/vs_$ID.suite.log 2>&1; RC_SUITE=$?
PYTHONPATH=$WT/src timeout 300 /venv/bin/python $SRC/demo.py >/tmp/vs_$ID.mut.log 2>&1; RC_MUT=$?
echo "$ID: demo clean rc=$RC_CLEAN  suite rc=$RC_SUITE ($(head -1 /tmp/vs_$ID.suite.log))  demo mutated rc=$RC_MUT"
OK=0
if [ $RC_CLEAN -eq 0 ] && [ $RC_SUITE -eq 0 ] && [ $RC_MUT -ne 0 ]; then
  mkdir -p /verif/seeded/$ID
  cp $SRC/patch.diff $SRC/demo.py /verif/seeded/$ID/
  /venv/bin/python - "$SRC/meta.json" "$ID" "$RC_CLEAN" "$RC_MUT" "$(tail -3 /tmp/vs_$ID.mut.log | tr '\n' ' ' | cut -c1-400)" <<'P'
import json,sys
src,ID,rc_clean,rc_mut,tail=sys.argv[1:6]
try: meta=json.load(open(src))
except Exception: meta={}
meta['id']=ID
meta['breaks_property']=meta.get('property')
meta['needs_to_manifest']=meta.get('needs')
meta['confirmed']={'what_i_ran':[
  'fresh git worktree of /repo HEAD under /tmp (removed afterwards)',
  'demo.py on the clean tree: exit %s'%rc_clean,
  'git apply patch.diff; /verif/tools/run_baseline.sh <worktree>: all 1403 stable-pass tests pass',
  'demo.py on the changed tree: exit %s'%rc_mut],
  'demo_failure_tail':tail}
json.dump(meta,open('/verif/seeded/%s/meta.json'%ID,'w'),indent=1)
P
  OK=1
fi
cleanup
rm -f /tmp/vs_$ID.*.log
[ $OK -eq 1 ] && exit 0 || exit 1
