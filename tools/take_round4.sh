#!/bin/bash
# usage: take_round2.sh Cxx  -> confirms /tmp/wt4/Cxx/out (as Cxx-c) and out/alt (as Cxx-d), runs the matrix on them
P=$1
[ -f /tmp/wt4/$P/out/patch.diff ] && /verif/tools/verify_seed.sh /tmp/wt4/$P/out $P-g
[ -f /tmp/wt4/$P/out/alt/patch.diff ] && /verif/tools/verify_seed.sh /tmp/wt4/$P/out/alt $P-h
IDS=""
[ -d /verif/seeded/$P-g ] && IDS="$IDS $P-g"
[ -d /verif/seeded/$P-h ] && IDS="$IDS $P-h"
[ -n "$IDS" ] && /verif/tools/seed_matrix.sh $IDS
