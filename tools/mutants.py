#!/usr/bin/env python3
"""Systematic one-token mutants of /repo/src/h2, for measuring the checks
(development tool; nothing registered in MANIFEST.json uses it).

  mutants.py gen  <outdir>           write <outdir>/NNNN.diff (+ index.json)
  mutants.py test <outdir> [jobs]    run the repository's suite on each mutant
                                     in scratch worktrees -> results.json
                                     (survived = the suite still passes)
  mutants.py check <outdir> [jobs]   run ./check all on each SURVIVING mutant
                                     (scratch copy of src/h2) -> flagged.json

Mutation operators (token level, one token per mutant): comparison operators
(< <= > >= == !=), `and`/`or`, `not` removed, `in`/`not in`, `is`/`is not`,
+/-, integer literals +1, True/False; and statement deletion (a simple
one-statement line replaced by `pass`).  Logging calls, docstrings, __repr__
methods and the events/exceptions/errors modules are left alone.
"""
import ast
import difflib
import io
import json
import os
import subprocess
import sys
import tokenize
from concurrent.futures import ThreadPoolExecutor

REPO = '/repo'
FILES = ['connection.py', 'stream.py', 'utilities.py', 'settings.py',
         'windows.py', 'frame_buffer.py', 'config.py']
if os.environ.get('MUT_FILES'):
    FILES = os.environ['MUT_FILES'].split(',')
SWAP = {'<': '<=', '<=': '<', '>': '>=', '>=': '>', '==': '!=', '!=': '==',
        'and': 'or', 'or': 'and', '+': '-', '-': '+', 'True': 'False',
        'False': 'True', '+=': '-=', '-=': '+='}


def skip_lines(src):
    """line numbers not to mutate: docstrings, logger calls, __repr__."""
    tree = ast.parse(src)
    skip = set()
    for n in ast.walk(tree):
        if isinstance(n, (ast.FunctionDef, ast.ClassDef, ast.Module)):
            b = n.body
            if b and isinstance(b[0], ast.Expr) and isinstance(
                    b[0].value, ast.Constant) and isinstance(
                        b[0].value.value, str):
                skip |= set(range(b[0].lineno, b[0].end_lineno + 1))
        if isinstance(n, ast.FunctionDef) and n.name in ('__repr__',
                                                          '__str__'):
            skip |= set(range(n.lineno, n.end_lineno + 1))
        if isinstance(n, ast.Expr) and isinstance(n.value, ast.Call):
            s = ast.unparse(n.value.func)
            if 'logger.' in s or s.endswith('.debug') or s.endswith('.trace'):
                skip |= set(range(n.lineno, n.end_lineno + 1))
        if isinstance(n, ast.Raise) and n.exc is not None:
            # the text of error messages is not behaviour we check
            for x in ast.walk(n.exc):
                if isinstance(x, ast.Constant) and isinstance(x.value, str):
                    skip |= set(range(x.lineno, x.end_lineno + 1))
    return skip, tree


def token_mutants(src, skip):
    out = []
    lines = src.splitlines(keepends=True)
    toks = list(tokenize.generate_tokens(io.StringIO(src).readline))
    for i, t in enumerate(toks):
        if t.start[0] in skip or t.start[0] != t.end[0]:
            continue
        new = None
        if t.type == tokenize.OP and t.string in SWAP:
            # unary minus / plus: leave
            prev = toks[i - 1] if i else None
            if t.string in '+-' and (prev is None or prev.type == tokenize.OP
                                     and prev.string not in (')', ']', '}')):
                continue
            new = SWAP[t.string]
        elif t.type == tokenize.NAME and t.string in ('and', 'or', 'True',
                                                      'False'):
            new = SWAP[t.string]
        elif t.type == tokenize.NAME and t.string == 'not':
            nxt = toks[i + 1]
            if nxt.type == tokenize.NAME and nxt.string == 'in':
                # `not in` -> `in`
                ln = lines[t.start[0] - 1]
                nl = ln[:t.start[1]] + ln[nxt.start[1]:]
                out.append((t.start[0], 'not in->in', nl))
                continue
            ln = lines[t.start[0] - 1]
            nl = ln[:t.start[1]] + ln[t.end[1]:].lstrip(' ')
            out.append((t.start[0], 'not removed', nl))
            continue
        elif t.type == tokenize.NAME and t.string == 'in':
            prev = toks[i - 1]
            if prev.type == tokenize.NAME and prev.string == 'not':
                continue
            # only the comparison `in`, not `for x in`
            k = i - 1
            is_for = False
            depth = 0
            while k >= 0 and toks[k].start[0] == t.start[0] or depth:
                s = toks[k].string
                if s in ')]}':
                    depth += 1
                elif s in '([{':
                    if depth == 0:
                        break
                    depth -= 1
                elif s == 'for' and depth == 0:
                    is_for = True
                    break
                elif s in ('if', 'and', 'or', 'not', 'return', '=', 'elif',
                           'while', 'assert') and depth == 0:
                    break
                k -= 1
                if k < 0:
                    break
            if is_for:
                continue
            new = 'not in'
        elif t.type == tokenize.NAME and t.string == 'is':
            nxt = toks[i + 1]
            ln = lines[t.start[0] - 1]
            if nxt.type == tokenize.NAME and nxt.string == 'not':
                nl = ln[:t.start[1]] + 'is' + ln[nxt.end[1]:]
                out.append((t.start[0], 'is not->is', nl))
            else:
                nl = ln[:t.start[1]] + 'is not' + ln[t.end[1]:]
                out.append((t.start[0], 'is->is not', nl))
            continue
        elif t.type == tokenize.NUMBER and t.string.isdigit():
            new = str(int(t.string) + 1)
        if new is None:
            continue
        ln = lines[t.start[0] - 1]
        nl = ln[:t.start[1]] + new + ln[t.end[1]:]
        out.append((t.start[0], '%s->%s' % (t.string, new), nl))
    return out


def stmt_mutants(src, skip, tree):
    out = []
    lines = src.splitlines(keepends=True)
    for n in ast.walk(tree):
        if not isinstance(n, (ast.Expr, ast.Assign, ast.AugAssign)):
            continue
        if n.lineno in skip:
            continue
        if isinstance(n, ast.Expr) and not isinstance(n.value, ast.Call):
            continue
        ln = lines[n.lineno - 1]
        ind = ln[:len(ln) - len(ln.lstrip())]
        out.append((n.lineno, n.end_lineno, 'delete %s' % type(n).__name__,
                    ind + 'pass\n'))
    return out


def _offsets(src):
    offs = [0]
    for ln in src.splitlines(keepends=True):
        offs.append(offs[-1] + len(ln))
    return offs


def structural_mutants(src, skip, tree):
    """(line, op, new source): guard removal, literal element removal,
    raise class swap, condition negation."""
    out = []
    offs = _offsets(src)

    def pos(ln, col):
        # col offsets are in utf-8 bytes; the sources are ASCII
        return offs[ln - 1] + col
    lines = src.splitlines(keepends=True)
    for n in ast.walk(tree):
        if getattr(n, 'lineno', None) in skip:
            continue
        if isinstance(n, ast.If) and not n.orelse and all(
                isinstance(x, ast.Raise) for x in n.body):
            ln = lines[n.lineno - 1]
            ind = ln[:len(ln) - len(ln.lstrip())]
            new = lines[:n.lineno - 1] + [ind + 'pass\n'] + \
                lines[n.end_lineno:]
            out.append((n.lineno, 'drop guard', ''.join(new)))
        if isinstance(n, ast.If) and isinstance(
                n.test, (ast.Name, ast.Attribute, ast.Call, ast.Compare,
                         ast.BoolOp)):
            a, b = pos(n.test.lineno, n.test.col_offset), \
                pos(n.test.end_lineno, n.test.end_col_offset)
            out.append((n.lineno, 'negate if',
                        src[:a] + 'not (' + src[a:b] + ')' + src[b:]))
        if isinstance(n, (ast.Tuple, ast.List, ast.Set)) and \
                len(n.elts) >= 2 and isinstance(
                    getattr(n, 'ctx', ast.Load()), ast.Load):
            el = n.elts
            for i, e in enumerate(el):
                if i + 1 < len(el):
                    a = pos(e.lineno, e.col_offset)
                    b = pos(el[i + 1].lineno, el[i + 1].col_offset)
                else:
                    a = pos(el[i - 1].end_lineno, el[i - 1].end_col_offset)
                    b = pos(e.end_lineno, e.end_col_offset)
                out.append((e.lineno, 'drop element', src[:a] + src[b:]))
        if isinstance(n, ast.Dict) and len(n.keys) >= 2 and \
                all(k is not None for k in n.keys):
            ks, vs = n.keys, n.values
            for i, k in enumerate(ks):
                if i + 1 < len(ks):
                    a = pos(k.lineno, k.col_offset)
                    b = pos(ks[i + 1].lineno, ks[i + 1].col_offset)
                else:
                    a = pos(vs[i - 1].end_lineno, vs[i - 1].end_col_offset)
                    b = pos(vs[i].end_lineno, vs[i].end_col_offset)
                out.append((k.lineno, 'drop entry', src[:a] + src[b:]))
        if isinstance(n, ast.Raise) and isinstance(n.exc, ast.Call) and \
                isinstance(n.exc.func, ast.Name) and \
                n.exc.func.id.endswith('Error'):
            f = n.exc.func
            new = 'FlowControlError' if f.id == 'ProtocolError' \
                else 'ProtocolError'
            a, b = pos(f.lineno, f.col_offset), \
                pos(f.end_lineno, f.end_col_offset)
            out.append((n.lineno, 'raise %s->%s' % (f.id, new),
                        src[:a] + new + src[b:]))
        if isinstance(n, ast.If) and n.orelse and not (
                len(n.orelse) == 1 and isinstance(n.orelse[0], ast.If)):
            # drop a plain else branch
            first = n.orelse[0]
            last = n.orelse[-1]
            ln = lines[first.lineno - 1]
            ind = ln[:len(ln) - len(ln.lstrip())]
            new = lines[:first.lineno - 1] + [ind + 'pass\n'] + \
                lines[last.end_lineno:]
            out.append((first.lineno, 'drop else', ''.join(new)))
    return out


PAIRS = [('inbound', 'outbound'), ('local', 'remote'), ('LOCAL', 'REMOTE'),
         ('SEND_', 'RECV_'), ('send_', 'recv_'), ('send_', 'receive_'),
         ('sent', 'received'), ('client', 'server'), ('EVEN', 'ODD'),
         ('min', 'max'), ('open', 'closed'), ('request', 'response'),
         ('encoder', 'decoder'), ('original_value', 'new_value'),
         ('END_STREAM', 'END_HEADERS'), ('stream_id', 'promised_stream_id'),
         ('headers', 'trailers'), ('HEADERS', 'DATA')]


def confusion_mutants(src, skip):
    """A name replaced by its opposite number (inbound/outbound, local/remote,
    SEND_/RECV_, ...) where that name exists elsewhere in the package."""
    vocab = set()
    for fn in FILES + ['events.py', 'exceptions.py', 'errors.py']:
        s = open(os.path.join(REPO, 'src', 'h2', fn)).read()
        for t in tokenize.generate_tokens(io.StringIO(s).readline):
            if t.type == tokenize.NAME:
                vocab.add(t.string)
    out = []
    lines = src.splitlines(keepends=True)
    for t in tokenize.generate_tokens(io.StringIO(src).readline):
        if t.type != tokenize.NAME or t.start[0] in skip:
            continue
        for a, b in PAIRS:
            for x, y in ((a, b), (b, a)):
                if x in t.string:
                    new = t.string.replace(x, y, 1)
                    if new != t.string and new in vocab:
                        ln = lines[t.start[0] - 1]
                        # definitions are left alone (def / class / param)
                        before = ln[:t.start[1]].rstrip()
                        if before.endswith(('def', 'class')):
                            continue
                        nl = ln[:t.start[1]] + new + ln[t.end[1]:]
                        out.append((t.start[0], '%s->%s' % (t.string, new),
                                    nl))
    return out


def gen(outdir):
    os.makedirs(outdir, exist_ok=True)
    index = []
    k = 0
    for fn in FILES:
        path = os.path.join(REPO, 'src', 'h2', fn)
        src = open(path).read()
        skip, tree = skip_lines(src)
        lines = src.splitlines(keepends=True)
        muts = []
        for ln, op, nl in token_mutants(src, skip):
            new = list(lines)
            new[ln - 1] = nl
            muts.append((ln, op, new))
        for ln, end, op, nl in stmt_mutants(src, skip, tree):
            new = lines[:ln - 1] + [nl] + lines[end:]
            muts.append((ln, op, new))
        if os.environ.get('MUT_STRUCT'):
            muts = []
            for ln, op, newsrc in structural_mutants(src, skip, tree):
                muts.append((ln, op, newsrc.splitlines(keepends=True)))
        if os.environ.get('MUT_CONFUSE'):
            muts = []
            for ln, op, nl in confusion_mutants(src, skip):
                new = list(lines)
                new[ln - 1] = nl
                muts.append((ln, op, new))
        for ln, op, new in muts:
            try:
                ast.parse(''.join(new))
            except SyntaxError:
                continue
            rel = 'src/h2/' + fn
            d = ''.join(difflib.unified_diff(
                lines, new, 'a/' + rel, 'b/' + rel, n=3))
            if not d:
                continue
            k += 1
            name = '%04d' % k
            open(os.path.join(outdir, name + '.diff'), 'w').write(d)
            index.append({'id': name, 'file': fn, 'line': ln, 'op': op,
                          'text': lines[ln - 1].strip()[:100]})
    json.dump(index, open(os.path.join(outdir, 'index.json'), 'w'), indent=0)
    print('%d mutants' % k)


def sh(cmd, **kw):
    return subprocess.run(cmd, shell=True, stdout=subprocess.PIPE,
                          stderr=subprocess.STDOUT, text=True, **kw)


def test(outdir, jobs):
    index = json.load(open(os.path.join(outdir, 'index.json')))
    desel = ' '.join('--deselect "%s"' % x for x in
                     open('/tmp/deselect.txt').read().split('\n') if x)
    wts = []
    for j in range(jobs):
        wt = '/tmp/mw_%d' % j
        sh('git -C /repo worktree remove --force %s' % wt)
        r = sh('git -C /repo worktree add --detach %s HEAD' % wt)
        assert r.returncode == 0, r.stdout
        wts.append(wt)
    import queue
    free = queue.Queue()
    for w in wts:
        free.put(w)
    results = {}
    rp = os.path.join(outdir, 'results.json')
    if os.path.exists(rp):
        results = json.load(open(rp))

    def one(m):
        if m['id'] in results:
            return
        wt = free.get()
        try:
            d = os.path.join(outdir, m['id'] + '.diff')
            r = sh('cd %s && git checkout -q -- . && git apply %s' % (wt, d))
            if r.returncode != 0:
                results[m['id']] = 'apply-failed'
                return
            r = sh('cd %s && PYTHONPATH=%s/src timeout 600 /venv/bin/python '
                   '-m pytest -x -q -p no:cacheprovider --timeout=120 %s '
                   '2>&1 | tail -2' % (wt, wt, desel))
            last = r.stdout.strip().split('\n')[-1]
            results[m['id']] = 'survived' if (' passed' in last and
                                              'failed' not in last and
                                              'error' not in last) \
                else 'killed'
        finally:
            sh('cd %s && git checkout -q -- .' % wt)
            free.put(wt)
    with ThreadPoolExecutor(jobs) as ex:
        for i, _ in enumerate(ex.map(one, index)):
            if i % 100 == 0:
                json.dump(results, open(rp, 'w'))
                print(i, flush=True)
    json.dump(results, open(rp, 'w'))
    for wt in wts:
        sh('git -C /repo worktree remove --force %s' % wt)
    sh('git -C /repo worktree prune')
    n = sum(1 for v in results.values() if v == 'survived')
    print('%d mutants, %d survived' % (len(results), n))


def check(outdir, jobs):
    index = json.load(open(os.path.join(outdir, 'index.json')))
    results = json.load(open(os.path.join(outdir, 'results.json')))
    fp = os.path.join(outdir, 'flagged.json')
    flagged = json.load(open(fp)) if os.path.exists(fp) else {}

    def one(m):
        if results.get(m['id']) != 'survived' or m['id'] in flagged:
            return
        import tempfile
        import shutil
        D = tempfile.mkdtemp(prefix='mutrun.')
        try:
            os.makedirs(D + '/src')
            shutil.copytree('/repo/src/h2', D + '/src/h2')
            r = sh('cd %s && patch -s -p1 < %s' % (
                D, os.path.join(outdir, m['id'] + '.diff')))
            r = sh('cd /verif && H2VERIF_NOEVIDENCE=1 ./check all --summary '
                   '--repo %s' % D)
            hit = [l.split()[0] for l in r.stdout.split('\n')
                   if ' rc=1 ' in l]
            err = [l.split()[0] for l in r.stdout.split('\n')
                   if ' rc=2 ' in l or l.startswith('ANALYSIS-ERROR')]
            flagged[m['id']] = {'hit': hit, 'err': err}
        finally:
            shutil.rmtree(D, ignore_errors=True)
    with ThreadPoolExecutor(jobs) as ex:
        for i, _ in enumerate(ex.map(one, index)):
            if i % 100 == 0:
                json.dump(flagged, open(fp, 'w'))
    json.dump(flagged, open(fp, 'w'))
    n = len(flagged)
    un = [k for k, v in flagged.items() if not v['hit'] and not v['err']]
    print('%d surviving mutants checked, %d flagged by no check' % (
        n, len(un)))


if __name__ == '__main__':
    cmd = sys.argv[1]
    out = sys.argv[2]
    jobs = int(sys.argv[3]) if len(sys.argv) > 3 else 12
    {'gen': lambda: gen(out), 'test': lambda: test(out, jobs),
     'check': lambda: check(out, jobs)}[cmd]()
