#!/bin/bash
# usage: take_round2.sh Cxx  -> confirms /tmp/wt3/Cxx/out (as Cxx-c) and out/alt (as Cxx-d), runs the matrix on them
P=$1
[ -f /tmp/wt3/$P/out/patch.diff ] && /verif/tools/verify_seed.sh /tmp/wt3/$P/out $P-e
[ -f /tmp/wt3/$P/out/alt/patch.diff ] && /verif/tools/verify_seed.sh /tmp/wt3/$P/out/alt $P-f
IDS=""
[ -d /verif/seeded/$P-e ] && IDS="$IDS $P-e"
[ -d /verif/seeded/$P-f ] && IDS="$IDS $P-f"
[ -n "$IDS" ] && /verif/tools/seed_matrix.sh $IDS
