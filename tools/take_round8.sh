#!/bin/bash
# usage: take_round2.sh Cxx  -> confirms /tmp/wt8/Cxx/out (as Cxx-c) and out/alt (as Cxx-d), runs the matrix on them
P=$1
[ -f /tmp/wt8/$P/out/patch.diff ] && /verif/tools/verify_seed.sh /tmp/wt8/$P/out $P-o
[ -f /tmp/wt8/$P/out/alt/patch.diff ] && /verif/tools/verify_seed.sh /tmp/wt8/$P/out/alt $P-p
IDS=""
[ -d /verif/seeded/$P-o ] && IDS="$IDS $P-o"
[ -d /verif/seeded/$P-p ] && IDS="$IDS $P-p"
[ -n "$IDS" ] && /verif/tools/seed_matrix.sh $IDS
